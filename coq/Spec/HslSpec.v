(* HslSpec.v — what the colour functions should return: the standard conversion (Model/Colorsys.v, a
   transcription of the reference algorithm), the named component shifted and clamped, hue modulo 360,
   weighted per-channel average; every channel = the exact value rounded to the nearest integer. *)
From Coq Require Import String.
From Coq Require Import List Ascii Bool NArith ZArith QArith Qround.
Require Import Model.Text Model.ParamTypes Model.Num Model.NumLex Model.PyNum Model.Colorsys Spec.ColorSpec Spec.NumSpec.
Import ListNotations.
Local Open Scope Q_scope.

Definition clamp01 (x : Q) : Q := qmin 1 (qmax 0 x).
Definition unit_rgb (c : N * N * N) : Q * Q * Q :=
  let '(r, g, b) := c in (inject_Z (Z.of_N r) / 255, inject_Z (Z.of_N g) / 255, inject_Z (Z.of_N b) / 255).
Definition hls_of (c : N * N * N) : Q * Q * Q := let '(r, g, b) := unit_rgb c in rgb_to_hls r g b.

(* exact channel values (0..255 scale) *)
Definition exact255 (c : Q * Q * Q) : Q * Q * Q := let '(r, g, b) := c in (r * 255, g * 255, b * 255).

Inductive comp := CompL | CompS.
(* [neg] = the component is decreased (darken, desaturate) *)
Definition spec_shift (c : N * N * N) (which : comp) (neg : bool) (amount : Q) : Q * Q * Q :=
  let '(h, l, s) := hls_of c in
  let d := if neg then - (amount / 100) else amount / 100 in
  match which with
  | CompL => exact255 (hls_to_rgb h (clamp01 (l + d)) s)
  | CompS => exact255 (hls_to_rgb h l (clamp01 (s + d)))
  end.
Definition spec_spin (c : N * N * N) (degree : Q) : Q * Q * Q :=
  let '(h, l, s) := hls_of c in
  exact255 (hls_to_rgb (py_mod (h * 360 + degree) 360 / 360) l s).
Definition spec_mix (c1 c2 : N * N * N) (weight : Q) : Q * Q * Q :=
  let w := weight / 100 in
  let '(r1, g1, b1) := c1 in let '(r2, g2, b2) := c2 in
  let ch (x y : N) := inject_Z (Z.of_N x) * w + inject_Z (Z.of_N y) * (1 - w) in
  (ch r1 r2, ch g1 g2, ch b1 b2).
Definition spec_hsl (h s l : Q) : Q * Q * Q := exact255 (hls_to_rgb (inject_Z (Qtrunc h) / 360) l s).

(* a printed channel k agrees with the exact value x: nearest integer, either neighbour at a tie;
   slack = 1 allows truncation (mix) *)
Definition chan_near (slack : bool) (x : Q) (k : Z) : bool :=
  let x := qmin 255 (qmax 0 x) in
  let d := Qabs' (inject_Z k - x) in
  if slack then Qle_bool d 1 else Qle_bool d (1#2).

Definition colour_near (slack : bool) (exact : Q * Q * Q) (printed : str) : bool :=
  match colour_value printed with
  | Some (r, g, b) =>
      let '(x, y, z) := exact in
      wellformed_colour printed && chan_near slack x (Z.of_N r) && chan_near slack y (Z.of_N g) && chan_near slack z (Z.of_N b)
  | None => false
  end.

(* ---- executable checks used by the correspondence harness ---- *)
Definition shift_of (name : str) : option (comp * bool) :=
  assoc name [($"lighten", (CompL, false)); ($"darken", (CompL, true)); ($"saturate", (CompS, false)); ($"desaturate", (CompS, true))].

Definition spec_fn_exact (name color : str) (amount : Q) : option (Q * Q * Q) :=
  match colour_value color with
  | None => None
  | Some c =>
      if str_eqb name $"spin" then Some (spec_spin c amount)
      else if str_eqb name $"greyscale" then Some (spec_shift c CompS true 100)
      else match shift_of name with
           | Some (which, neg) => Some (spec_shift c which neg amount)
           | None => None
           end
  end.

Definition near_opt (slack : bool) (exact : option (Q * Q * Q)) (printed : str) : bool :=
  match exact with Some e => colour_near slack e printed | None => false end.

(* one colour, one function, a list of amounts and the implementation's answers for them *)
Fixpoint grid_bad (name color : str) (amounts : list Q) (impls : list str) (k : N) : list N :=
  match amounts, impls with
  | a :: ar, i :: ir =>
      (if near_opt false (spec_fn_exact name color a) i then [] else [k]) ++ grid_bad name color ar ir (k + 1)
  | _, _ => []
  end.

Definition show_exact (e : option (Q * Q * Q)) : string :=
  match e with
  | None => "None"
  | Some (x, y, z) =>
      let sh (q : Q) := String.append (string_of_list_ascii (dec_of_Z (Qnum (Qred q))))
                          (String.append "/" (string_of_list_ascii (dec_of_Z (Zpos (Qden (Qred q)))))) in
      String.append (sh x) (String.append " " (String.append (sh y) (String.append " " (sh z))))
  end.

(* rgba() with zero alpha keeps functional notation with DECIMAL channel values clamped to 0..255 *)
Definition spec_rgba_zero (r g b : Z) : str :=
  let d (z : Z) := dec_of_Z (Z.min 255 (Z.max 0 z)) in
  $"rgba(" ++ d r ++ $"," ++ d g ++ $"," ++ d b ++ $",0)".
