(* ArithSpec.v — ordinary arithmetic on expression trees, first-unit rule, and what counts as a rendering
   of a tree as tokens (any parenthesisation that respects precedence and left associativity). *)
From Coq Require Import String.
From Coq Require Import List Ascii Bool NArith ZArith QArith.
Require Import Model.Text Model.ParamTypes Model.Num Model.NumLex Model.ExprTypes.
Import ListNotations.
Local Open Scope Q_scope.

Fixpoint value (e : expr) : Q :=
  match e with
  | ENum n => nv n
  | EBin OAdd l r => value l + value r
  | EBin OSub l r => value l - value r
  | EBin OMul l r => value l * value r
  | EBin OTrueDiv l r => value l / value r
  | EBin _ l r => 0
  | ENeg e1 => - value e1
  end.

(* the unit of the first (leftmost) operand that has one *)
Fixpoint first_unit (e : expr) : str :=
  match e with
  | ENum n => nu n
  | EBin _ l r => match first_unit l with [] => first_unit r | u => u end
  | ENeg e1 => first_unit e1
  end.

Definition is_arith (o : aop) : bool :=
  match o with OAdd | OSub | OMul | OTrueDiv => true | _ => false end.

(* the property's exclusions: only + - * /, and no sub-expression (the whole included) evaluates to zero
   — hence every divisor is non-zero *)
Fixpoint arith_ok (e : expr) : Prop :=
  ~ value e == 0 /\
  match e with
  | ENum _ => True
  | EBin o l r => is_arith o = true /\ arith_ok l /\ arith_ok r
  | ENeg e1 => arith_ok e1
  end.

(* binding strength: * / above + - *)
Definition lvl (o : aop) : nat := match o with OMul | OTrueDiv => 2%nat | _ => 1%nat end.

(* [renders k e ts]: ts is a way of writing e in a context that requires binding strength >= k.
   Parentheses may be added around any sub-expression (necessary or redundant). *)
Inductive renders : nat -> expr -> list etok -> Prop :=
| R_num k n : renders k (ENum n) [TNum n]
| R_neg k e ts : renders 0%nat e ts -> renders k (ENeg e) (TNegL :: ts ++ [TR])
| R_bin k o l r tl tr :
    is_arith o = true -> (k <= lvl o)%nat -> renders (lvl o) l tl -> renders (S (lvl o)) r tr ->
    renders k (EBin o l r) (tl ++ TOp o :: tr)
| R_paren k e ts : renders 0%nat e ts -> renders k e (TL :: ts ++ [TR]).

(* the minimal rendering *)
Fixpoint print_min (k : nat) (e : expr) : list etok :=
  match e with
  | ENum n => [TNum n]
  | ENeg e1 => TNegL :: print_min 0%nat e1 ++ [TR]
  | EBin o l r =>
      let body := print_min (lvl o) l ++ TOp o :: print_min (S (lvl o)) r in
      if Nat.ltb (lvl o) k then TL :: body ++ [TR] else body
  end.

(* executable reference result for a tree: ordinary arithmetic, first unit (zero prints bare) *)
Definition spec_result (e : expr) : option num :=
  let q := value e in Some (MkNum q (if Qeq_bool q 0 then [] else first_unit e)).
