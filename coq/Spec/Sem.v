(* Sem.v — the reference semantics of the fragment: a stylesheet means a list of flat rules
   (media condition, selector list, declarations), obtained by lexical variable substitution, textual
   parent/child selector combination, conjunction of enclosing media conditions.  Short on purpose.
   Independent of Gen.Params and of the model's token tricks ('?>?' encoding, pairwise filters, rotation). *)
From Coq Require Import String.
From Coq Require Import List Ascii Bool NArith ZArith QArith.
Require Import Model.Text Model.ParamTypes Model.Num Model.NumLex Model.ExprTypes Model.Ast Spec.ColorSpec Spec.ArithSpec.
Import ListNotations.
Local Open Scope char_scope.

Inductive sres (A : Type) := SOk (a : A) | SErr (why : str).
Arguments SOk {A}. Arguments SErr {A}.
Definition sbind {A B} (r : sres A) (f : A -> sres B) : sres B := match r with SOk a => f a | SErr w => SErr w end.
Fixpoint smap {A B} (f : A -> sres B) (l : list A) : sres (list B) :=
  match l with [] => SOk [] | x :: r => sbind (f x) (fun y => sbind (smap f r) (fun ys => SOk (y :: ys))) end.

(* ---- text normalisation shared by both sides of a comparison ---- *)
(* collapse blank runs; drop blanks next to the given punctuation; leave quoted strings alone *)
Fixpoint squeeze_aux (punct : ascii -> bool) (q : option ascii) (pending : bool) (last_punct : bool) (x : str) : str :=
  match x with
  | [] => []
  | c :: r =>
      match q with
      | Some d => c :: squeeze_aux punct (if Ascii.eqb c d then None else q) false false r
      | None =>
          if is_space c then squeeze_aux punct None (negb last_punct) last_punct r
          else if punct c then c :: squeeze_aux punct None false true r
          else (if pending then [" "] else []) ++ c ::
               squeeze_aux punct (if Ascii.eqb c """" || Ascii.eqb c "'" then Some c else None) false false r
      end
  end.
Definition squeeze (punct : ascii -> bool) (x : str) : str := squeeze_aux punct None false true x.
Definition sel_punct (c : ascii) : bool := Ascii.eqb c ">" || Ascii.eqb c "+" || Ascii.eqb c "~" || Ascii.eqb c ",".
Definition val_punct (c : ascii) : bool := Ascii.eqb c ",".
Definition media_punct (c : ascii) : bool := Ascii.eqb c ":" || Ascii.eqb c "," || Ascii.eqb c "(" || Ascii.eqb c ")".
Definition norm_sel := squeeze sel_punct.
Definition norm_val := squeeze val_punct.
Definition norm_media := squeeze media_punct.

(* ---- flat rules ---- *)
Record frule := MkFrule { fr_media : str; fr_sels : list str; fr_decls : list (str * str * bool) }.

(* ---- variables: lexical, innermost first; top level: the last definition wins ---- *)
Definition senv := list (list (str * list vtok)).
Fixpoint slookup (x : str) (e : senv) : option (list vtok) :=
  match e with [] => None | f :: r => match assoc x f with Some v => Some v | None => slookup x r end end.

Definition op_sym (o : aop) : str := match o with OAdd => ["+"] | OSub => ["-"] | OMul => ["*"] | OTrueDiv => ["/"] | _ => ["?"] end.

(* exact value of an arithmetic leaf / tree over numbers (colours: channel-wise) *)
Inductive sval := SNum (n : num) | SColour (c : N * N * N) | SText (t : str).

Fixpoint q_to_dec (fuel : nat) (num den : Z) : str :=
  match fuel with
  | O => []
  | S f => if (num =? 0)%Z then [] else
           let d := (num * 10 / den)%Z in chr (48 + Z.to_N d) :: q_to_dec f (num * 10 - d * den)%Z den
  end.
Definition show_q (q : Q) : str :=
  let q := Qred q in let n := Qnum q in let d := Zpos (Qden q) in
  let a := Z.abs n in let ip := (a / d)%Z in let fr := (a - ip * d)%Z in
  (if (n <? 0)%Z then ["-"] else []) ++ dec_of_Z ip ++ (if (fr =? 0)%Z then [] else "." :: q_to_dec 16 fr d).
Definition show_sval (v : sval) : str :=
  match v with
  | SNum n => show_q (nv n) ++ nu n
  | SColour (r, g, b) => hex6 r g b
  | SText t => t
  end.

Definition classify (s : str) : sval :=
  match colour_value s with
  | Some c => SColour c
  | None => match parse_number s with Some n => SNum n | None => SText s end
  end.

Section Values.
  (* value of a token list in an environment: variables replaced by the value of their definition *)
  Fixpoint sval_toks (fuel : nat) (e : senv) (ts : list vtok) {struct fuel} : sres (list str) :=
    match fuel with
    | O => SErr $"variable cycle"
    | S f =>
        let look (x : str) : sres (list str) :=          (* @{name} inside a string or a selector means the value of @name *)
          let x := match x with "@" :: "{" :: r => "@" :: removelast r | _ => x end in
          match slookup x e with Some v => sval_toks f e v | None => SErr ($"unbound " ++ x) end in
        let fix ex (t : xexpr) : sres sval :=
          match t with
          | XTok s => SOk (classify s)
          | XVar x => sbind (look x) (fun l =>
                        match filter (fun t => negb (str_eqb t [" "])) l with
                        | [one] => SOk (classify one)
                        | _ => SErr $"multi-token operand"
                        end)
          | XBin o l r =>
              sbind (ex l) (fun a => sbind (ex r) (fun b =>
                match a, b with
                | SNum x, SNum y =>
                    let q := match o with OAdd => (nv x + nv y)%Q | OSub => (nv x - nv y)%Q | OMul => (nv x * nv y)%Q
                                        | OTrueDiv => (nv x / nv y)%Q | _ => 0%Q end in
                    SOk (SNum (MkNum q (if Qeq_bool q 0 then [] else match nu x with [] => nu y | u => u end)))
                | SColour (r1, g1, b1), SColour (r2, g2, b2) =>
                    SOk (SColour (chan_spec o r1 r2, chan_spec o g1 g2, chan_spec o b1 b2))
                | _, _ => SErr $"unsupported operands"
                end))
          | XNeg t1 => sbind (ex t1) (fun a => match a with
                                                | SNum x => SOk (SNum (MkNum (- nv x)%Q (nu x)))
                                                | _ => SErr $"negated non-number" end)
          end in
        let fix go (l : list vtok) : sres (list str) :=
          match l with
          | [] => SOk []
          | t :: r =>
              sbind (match t with
                     | VT s => SOk [s]
                     | VVar x => look x
                     | VExpr t1 => sbind (ex t1) (fun v => SOk [show_sval v; [" "]])
                     | VCall name args => sbind (sval_toks f e args) (fun a => SOk [name ++ ["("] ++ concat_str a ++ [")"]])
                     end) (fun here => sbind (go r) (fun rest => SOk (here ++ rest)))
          end in
        go ts
    end.
End Values.

(* ---- selectors ---- *)
Fixpoint split_commas (toks : list str) (cur : list str) : list (list str) :=
  match toks with
  | [] => [cur]
  | t :: r => if str_eqb t [","] then cur :: split_commas r [] else split_commas r (cur ++ [t])
  end.
Definition is_amp (t : str) : bool := str_eqb t ["&"].
Definition amp_count (p : list str) : nat := length (filter is_amp p).

Fixpoint tuples {A} (pool : list A) (k : nat) : list (list A) :=      (* itertools.product(pool, repeat=k) *)
  match k with O => [[]] | S k' => flat_map (fun x => map (cons x) (tuples pool k')) pool end.

Fixpoint subst_parents (child : list str) (ps : list str) : str :=
  match child with
  | [] => []
  | t :: r => if is_amp t then match ps with p :: ps' => p ++ subst_parents r ps' | [] => subst_parents r [] end
              else t ++ subst_parents r ps
  end.

(* every parent selector combined with one child selector: textual substitution of & (all parent
   combinations when & occurs several times), otherwise a descendant blank (a leading combinator of the
   child replaces it: normalisation removes blanks next to > + ~) *)
Definition combine_one (parents : list str) (child : list str) : list str :=
  let k := amp_count child in
  if Nat.ltb 0 k then map (fun ps => norm_sel (subst_parents child ps)) (tuples parents k)
  else map (fun p => norm_sel (p ++ [" "] ++ concat_str child)) parents.

Definition combine (parent : option (list str)) (sel : list str) : list str :=
  let children := split_commas sel [] in
  match parent with
  | Some ((_ :: _) as ps) => flat_map (combine_one ps) children
  | _ => map (fun c => norm_sel (concat_str c)) children
  end.

(* ---- statements ---- *)
Record fitem := MkItem { fi_media : str; fi_at : str; fi_sels : list str; fi_decls : list (str * str * bool) }.

Definition is_tok (s : str) (sel : list str) : bool := match sel with t :: _ => str_eqb t s | [] => false end.
Definition is_media_sel (sel : list str) : bool := is_tok $"@media" sel.
Definition is_at_sel (sel : list str) : bool := match sel with ("@" :: _) :: _ => true | _ => false end.
Definition media_query (sel : list str) : str := norm_media (concat_str (skipn 2 sel)).
Definition and_media (outer q : str) : str := match outer with [] => q | _ => outer ++ $" and " ++ q end.

Definition value_fuel : nat := 64.

Definition decl := (str * str * bool)%type.
Definition contrib := (senv * list decl * list fitem * list fitem)%type.   (* env after, own decls, unconditional, conditional *)

(* a mixin call means: the callee's body, evaluated here, with its parameters bound to the arguments *)
Definition sem_call_handler := str -> list (list str) -> str -> str -> option (list str) -> senv -> sres contrib.

(* one statement: what it adds to the enclosing body *)
Fixpoint sem_node (callf : sem_call_handler) (media at_ : str) (parent : option (list str)) (e : senv) (n : node) {struct n} : sres contrib :=
  let body := fix body (media1 at1 : str) (parent1 : option (list str)) (e1 : senv) (l : list node) {struct l}
                : sres (list decl * list fitem * list fitem) :=
    match l with
    | [] => SOk ([], [], [])
    | x :: r =>
        sbind (sem_node callf media1 at1 parent1 e1 x) (fun '(e2, d, u, c) =>
          sbind (body media1 at1 parent1 e2 r) (fun '(d2, u2, c2) => SOk (d ++ d2, u ++ u2, c ++ c2)))
    end in
  match n with
  | NProp name val imp =>
      sbind (sval_toks value_fuel e val) (fun v => SOk (e, [(name, norm_val (concat_str v), imp)], [], []))
  | NVar x v => SOk (match e with f :: r => ((x, v) :: f) :: r | [] => [[(x, v)]] end, [], [], [])
  | NStmt toks => SOk (e, [], [MkItem media at_ [concat_str toks] []], [])
  | NMixin _ _ _ => SOk (e, [], [], [])                   (* a definition emits nothing *)
  | NCall name args =>
      sbind (smap (sval_toks value_fuel e) args) (fun vals => callf name vals media at_ parent e)
  | NFrame sel fb =>
      sbind (body media at_ None ([] :: e) fb) (fun '(d, u, c) =>
        SOk (e, [], (match d with [] => [] | _ => [MkItem media at_ [sel] d] end) ++ u, c))
  | NBlock sel0 b =>
      (* an interpolation in the selector is replaced by the text of the variable's value *)
      sbind (smap (fun t => match t with
                            | "@" :: "{" :: _ => sbind (sval_toks value_fuel e [VVar t]) (fun l => SOk (concat_str l))
                            | "@" :: _ :: _ =>           (* a variable as the value of a media feature: its value where it is written *)
                                if is_media_sel sel0 && negb (str_eqb t $"@media")
                                then sbind (sval_toks value_fuel e [VVar t]) (fun l => SOk (concat_str l))
                                else SOk t
                            | _ => SOk t
                            end) sel0) (fun sel =>
      if is_media_sel sel then
        let m' := and_media media (media_query sel) in
        sbind (body m' at_ parent ([] :: e) b) (fun '(d, u, c) =>
          SOk (e, [], [],
               (match d with [] => [] | _ => [MkItem m' at_ (match parent with Some ps => ps | None => [] end) d] end) ++ u ++ c))
      else if is_at_sel sel then
        (* @keyframes name / @font-face / @viewport keep their header and are not combined with a parent selector *)
        let header := norm_sel (concat_str sel) in
        if is_tok $"@font-face" sel || is_tok $"@viewport" sel || is_tok $"@-ms-viewport" sel then
          sbind (body media at_ parent ([] :: e) b) (fun '(d, u, c) =>
            SOk (e, [], (match d with [] => [] | _ => [MkItem media at_ [header] d] end) ++ u, c))
        else
          sbind (body media header None ([] :: e) b) (fun '(d, u, c) => SOk (e, [], u, c))
      else
        let sels := combine parent sel in
        sbind (body media at_ (Some sels) ([] :: e) b) (fun '(d, u, c) =>
          SOk (e, [], (match d with [] => [] | _ => [MkItem media at_ sels d] end) ++ u, c)))
  end.


(* top level: every variable definition is visible everywhere (the last one wins) *)
Definition top_env (units : list node) : senv :=
  [fold_left (fun f n => match n with NVar x v => (x, v) :: f | _ => f end) units []].

(* ---- mixins = inlining ---- *)
Record sdef := MkSDef { sd_name : str; sd_params : list (str * option (list vtok)); sd_body : list node }.
Fixpoint sbind_params (params : list (str * option (list vtok))) (args : list (list str)) : option (list (str * list vtok)) :=
  match params with
  | [] => Some []
  | (p, dflt) :: pr =>
      match args with
      | a :: ar => option_map (cons (p, map VT a)) (sbind_params pr ar)
      | [] => match dflt with Some d => option_map (cons (p, d)) (sbind_params pr []) | None => None end
      end
  end.

Section SCalls.
  Variable defs : list sdef.
  Fixpoint sem_body_list (callf : sem_call_handler) (media at_ : str) (parent : option (list str)) (e : senv) (l : list node)
    : sres (senv * list decl * list fitem * list fitem) :=
    match l with
    | [] => SOk (e, [], [], [])
    | x :: r => sbind (sem_node callf media at_ parent e x) (fun '(e2, d, u, c) =>
                  sbind (sem_body_list callf media at_ parent e2 r) (fun '(e3, d2, u2, c2) => SOk (e3, d ++ d2, u ++ u2, c ++ c2)))
    end.
  Fixpoint sem_call (fuel : nat) (name : str) (args : list (list str)) (media at_ : str) (parent : option (list str)) (e : senv)
    {struct fuel} : sres contrib :=
    match fuel with
    | O => SErr $"mixin recursion too deep"
    | S f =>
        let fix try (ds : list sdef) : sres contrib :=
          match ds with
          | [] => SOk (e, [], [], [])
          | d :: rest =>
              if str_eqb (sd_name d) name then
                match sbind_params (sd_params d) args, sd_body d with
                | Some binds, (_ :: _) as body =>
                    (* parameters (and @arguments) live in a frame of their own around the body *)
                    (* @arguments: the arguments written at the call, or, when none is written, the default values *)
                    let argv := match args with
                                | [] => flat_map (fun pd => match snd pd with Some dv => dv ++ [VT [" "]] | None => [] end) (sd_params d)
                                | _ => flat_map (fun a => map VT a ++ [VT [" "]]) args
                                end in
                    let frame := ($"@arguments", argv) :: rev binds in
                    sbind (sem_body_list (sem_call f) media at_ parent (frame :: e) body) (fun '(_, d1, u, c) => SOk (e, d1, u, c))
                | _, _ => try rest
                end
              else try rest
          end in
        try defs
    end.
End SCalls.

Definition collect_sdefs (units : list node) : list sdef :=
  flat_map (fun n => match n with
                     | NMixin name params body => [MkSDef name params body]
                     | NBlock [name] body => [MkSDef name [] body]
                     | NBlock [name; [" "%char]] body => [MkSDef name [] body]
                     | _ => []
                     end) units.

Fixpoint sem_units (callf : sem_call_handler) (e : senv) (units : list node) : sres (list fitem) :=
  match units with
  | [] => SOk []
  | NVar _ _ :: r => sem_units callf e r
  | n :: r =>
      sbind (sem_node callf [] [] None e n) (fun '(_, d, u, c) => sbind (sem_units callf e r) (fun rest => SOk (u ++ c ++ rest)))
  end.
Definition sem (units : list node) : sres (list fitem) :=
  sem_units (sem_call (collect_sdefs units) 66) (top_env units) units.

(* comparison with what was read back from an output stylesheet *)
Definition decl_eqb (a b : decl) : bool :=
  let '(n1, v1, i1) := a in let '(n2, v2, i2) := b in str_eqb n1 n2 && str_eqb (norm_val v1) (norm_val v2) && Bool.eqb i1 i2.
Definition item_eqb (a b : fitem) : bool :=
  str_eqb (norm_media (fi_media a)) (norm_media (fi_media b)) && str_eqb (norm_sel (fi_at a)) (norm_sel (fi_at b))
  && list_eqb (fun x y => str_eqb (norm_sel x) (norm_sel y)) (fi_sels a) (fi_sels b)
  && list_eqb decl_eqb (fi_decls a) (fi_decls b).
Definition sem_matches (units : list node) (read : list fitem) : bool :=
  match sem units with SOk items => list_eqb item_eqb items read | SErr _ => false end.
Definition sem_fails (units : list node) : bool := match sem units with SErr _ => true | SOk _ => false end.

Definition show_items (l : list fitem) : string :=
  string_of_list_ascii (concat_str (map (fun i =>
    $"[" ++ fi_media i ++ $"|" ++ fi_at i ++ $"|" ++ join $"," (fi_sels i) ++ $"{" ++
    concat_str (map (fun d : decl => fst (fst d) ++ $":" ++ snd (fst d) ++ (if snd d then $"!" else []) ++ $";") (fi_decls i)) ++ $"}]") l)).
Definition show_sem (units : list node) : string :=
  match sem units with SOk items => show_items items | SErr w => String.append "ERR " (string_of_list_ascii w) end.
