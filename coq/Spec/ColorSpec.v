(* ColorSpec.v — reference meaning of hex colour literals and of channel-wise colour arithmetic. *)
From Coq Require Import String.
From Coq Require Import List Ascii Bool NArith ZArith.
Require Import Model.Text Model.ParamTypes.
Import ListNotations.
Local Open Scope char_scope.

Definition hex2 (n : N) : str := [hexdigit (n / 16); hexdigit (n mod 16)].
Definition hex6 (r g b : N) : str := "#" :: hex2 r ++ hex2 g ++ hex2 b.

(* the colour a literal denotes: '#' + 3 or 6 hex digits, any letter case *)
Definition colour_value (v : str) : option (N * N * N) :=
  match v with
  | ["#"; a; b; c] =>
      match hexval a, hexval b, hexval c with
      | Some x, Some y, Some z => Some (17 * x, 17 * y, 17 * z)%N
      | _, _, _ => None end
  | ["#"; a1; a2; b1; b2; c1; c2] =>
      match hexval a1, hexval a2, hexval b1, hexval b2, hexval c1, hexval c2 with
      | Some x1, Some x2, Some y1, Some y2, Some z1, Some z2 =>
          Some (16 * x1 + x2, 16 * y1 + y2, 16 * z1 + z2)%N
      | _, _, _, _, _, _ => None end
  | _ => None
  end.

Definition clamp255 (z : Z) : N := Z.to_N (Z.min 255 (Z.max 0 z)).

(* channel-wise arithmetic, clamped to 0..255; division = integer quotient (divisor non-zero) *)
Definition chan_spec (o : aop) (x y : N) : N :=
  match o with
  | OAdd => clamp255 (Z.of_N x + Z.of_N y)
  | OSub => clamp255 (Z.of_N x - Z.of_N y)
  | OMul => clamp255 (Z.of_N x * Z.of_N y)
  | OTrueDiv => clamp255 (Z.of_N x / Z.of_N y)
  | _ => 0%N
  end.

Definition op_of_sym (o : str) : option aop :=
  match o with
  | ["+"] => Some OAdd | ["-"] => Some OSub | ["*"] => Some OMul | ["/"] => Some OTrueDiv
  | _ => None end.

Definition is_lower_hex (c : ascii) : bool := is_digit c || in_range 97 102 c.
Definition wellformed_colour (v : str) : bool :=
  match v with "#" :: r => Nat.eqb (length r) 6 && forallb is_lower_hex r | _ => false end.

(* executable reference results, used by the correspondence check (implementation vs spec) *)
Definition spec_literal (v : str) : option str :=
  match colour_value v with Some (r, g, b) => Some (hex6 r g b) | None => None end.
Definition spec_color_expr (v1 sym v2 : str) : option str :=
  match colour_value v1, colour_value v2, op_of_sym sym with
  | Some (r1, g1, b1), Some (r2, g2, b2), Some o =>
      match o, (r2 =? 0)%N || (g2 =? 0)%N || (b2 =? 0)%N with
      | OTrueDiv, true => None
      | _, _ => Some (hex6 (chan_spec o r1 r2) (chan_spec o g1 g2) (chan_spec o b1 b2))
      end
  | _, _, _ => None
  end.
