#!/venv/bin/python
"""check.py <Cxx> <quick|thorough>   |   check.py --replay <file>   |   check.py --setup

Decides one property of /repo's CURRENT working tree:
  1. regenerate coq/Gen/Params.v from the source (translator), rebuild the Coq development (make -k);
  2. obligations = the theorems of Props/<id>.v and the table facts they rest on, re-checked by coqc
     against the regenerated parameters (Print Assumptions captured);
  3. correspondence: generated inputs run through the real lesscpy and through the Coq model AND the
     Coq reference semantics (vm_compute on generated cases files);
  4. verdict (DESIGN.md 2.5).  exit 1 + `VIOLATION property=<id> replay=<path>` on a violation.
"""
import sys, os, json, time, random, importlib, traceback

VERIF = os.path.dirname(os.path.abspath(__file__))
sys.path.insert(0, VERIF)
from harness import framework as fw          # noqa: E402


def classify(pid, mismatch, findings):
    """Return the known finding a spec-mismatch belongs to, or None."""
    cls = mismatch.get('classes', [])
    for f in findings:          # a finding recorded under one property also explains the same input under another
        if f['classifier'] in cls:
            return f
    return None


def run_check(pid, tier):
    t0 = time.time()
    seed = int(os.environ.get('VERIF_SEED', '0') or 0)
    mod = importlib.import_module('harness.props.%s' % pid.lower())
    with fw.Lock():
        gp = fw.gen_params()
        if not gp['ok']:
            print('gen_params failed:\n' + gp['error'])
            failed = fw.build()
        else:
            failed = fw.build(clean=(tier == 'thorough' and os.environ.get('VERIF_CLEAN') == '1'))
        obl = fw.obligations(pid, failed)
    hyg = fw.hygiene()
    findings = fw.load_findings()
    scratch = fw.scratch_dir(pid)
    ctx = {'pid': pid, 'tier': tier, 'seed': seed, 'diff': gp.get('diff', {}), 'soft': gp.get('soft', []),
           'scratch': scratch, 'failed': failed, 'mult': 1, 'obligations_broken': bool(obl['broken'])}
    violations, known_seen, notes = [], {}, []
    try:
        model_usable = not any(f.startswith('Model/') or f.startswith('Gen/') for f in failed)
        ctx['model_usable'] = model_usable
        res = mod.run(ctx)
        total = dict(res)
        # ---- search when an obligation or the correspondence broke
        need_search = bool(obl['broken']) or bool(res.get('model_mismatch')) or bool(ctx['soft']) or not model_usable
        if need_search and not res.get('spec_mismatch'):
            ctx2 = dict(ctx, mult=10, seed=seed + 7919, search=True)
            res2 = mod.run(ctx2)
            for k in ('evaluations', 'distinct_nontrivial'):
                total[k] = total.get(k, 0) + res2.get(k, 0)
            total['spec_mismatch'] = res.get('spec_mismatch', []) + res2.get('spec_mismatch', [])
            total['model_mismatch'] = res.get('model_mismatch', []) + res2.get('model_mismatch', [])
            total['searched'] = True
        # ---- verdicts
        for mm in total.get('spec_mismatch', []):
            f = classify(pid, mm, findings)
            if f is not None:
                known_seen.setdefault(f['id'], {'finding': f, 'n': 0, 'example': mm})['n'] += 1
            else:
                violations.append({'kind': 'input', 'case': mm})
        real_model_mm = [m for m in total.get('model_mismatch', []) if classify(pid, m, findings) is None]
        if not violations:
            if obl['broken']:
                for b in obl['broken']:
                    violations.append({'kind': 'obligation', 'theorem': b['lemma'] or b['file'], 'file': b['file'],
                                       'error': b['error'], 'param_diff': gp.get('diff', {})})
            elif real_model_mm:
                violations.append({'kind': 'correspondence', 'name': 'model-vs-implementation (%s)' % pid,
                                   'examples': real_model_mm[:5], 'param_diff': gp.get('diff', {})})
            elif not model_usable:
                violations.append({'kind': 'obligation', 'theorem': 'model build', 'file': ','.join(sorted(failed)),
                                   'error': json.dumps(failed)[:1500], 'param_diff': gp.get('diff', {})})
        if total.get('harness_errors'):
            notes.append({'harness_errors': total['harness_errors'][:5]})
            violations.append({'kind': 'correspondence', 'name': 'harness error (cases could not be evaluated)',
                               'examples': total['harness_errors'][:3], 'param_diff': gp.get('diff', {})})
        if hyg:
            violations.append({'kind': 'obligation', 'theorem': 'hygiene', 'file': ';'.join(hyg), 'error': 'forbidden vernacular',
                               'param_diff': {}})
        # ---- known findings: exemplar must still fail, printed once each
        for f in findings:
            if f['property'] != pid:
                continue
            st = mod.exemplar_fails(ctx, f) if hasattr(mod, 'exemplar_fails') else None
            if st is True or (st is None and f['id'] in known_seen):
                print('KNOWN-FINDING: property=%s %s: %s' % (pid, f['id'], f['what']))
            elif st is False:
                notes.append({'finding_no_longer_reproduces': f['id']})
        # ---- output
        lines = []
        seen_replays = set()
        violations.sort(key=lambda v: len(json.dumps(v.get('case', {}).get('input', ''))) if v['kind'] == 'input' else 10**6)
        for v in violations[:3]:
            if v['kind'] == 'input':
                payload = {'property': pid, 'kind': 'failing-input', 'case': v['case'],
                           'replay_cmd': '/venv/bin/python check.py --replay <this file>'}
                path = fw.write_replay(pid, payload)
                line = 'VIOLATION property=%s replay=%s' % (pid, path)
            else:
                payload = {'property': pid, 'kind': v['kind'], 'no_longer_checks': v.get('theorem') or v.get('name'),
                           'detail': v}
                path = fw.write_replay(pid, payload)
                line = 'VIOLATION property=%s replay=%s no-failing-input-found' % (pid, path)
            if path not in seen_replays:
                seen_replays.add(path)
                lines.append(line)
        wall = time.time() - t0
        cov = {
            'obligations': obl['n'], 'discharged': obl['discharged'],
            'obligation_names': obl['names'],
            'checker_cmd': 'cd /verif/coq && coq_makefile -f _CoqProject -o Makefile && make -k && coqc -Q . "" Props/%s.v' % pid,
            'trusted_base': fw.TRUSTED_BASE + list(getattr(mod, 'TRUSTED', [])),
            'print_assumptions': obl['assumptions'],
            'evaluations': total.get('evaluations', 0),
            'distinct_nontrivial': total.get('distinct_nontrivial', 0),
            'rule': getattr(mod, 'RULE', ''),
            'samples': total.get('samples', [])[:8],
            'distribution': total.get('distribution', {}),
            'exhaustive': bool(total.get('exhaustive', False)),
            'sweeps': total.get('sweeps', {}),
            'params_reextraction_soft': ctx['soft'],
            'params_diff_vs_golden': gp.get('diff', {}),
            'known_findings_seen': {k: {'n': v['n']} for k, v in known_seen.items()},
            'search_ran': bool(total.get('searched')),
            'notes': notes,
            'explanation': getattr(mod, 'EXPLANATION', ''),
        }
        fw.write_evidence(pid, tier, seed, cov, wall, len(lines), list(getattr(mod, 'ASSUMPTIONS', [])),
                          level=getattr(mod, 'LEVEL', 'proof'))
        for l in lines:
            print(l)
        print('%s %s: obligations %d/%d, cases %d (nontrivial %d), violations %d, %.1fs' % (
            pid, tier, obl['discharged'], obl['n'], cov['evaluations'], cov['distinct_nontrivial'], len(lines), wall))
        return 1 if lines else 0
    finally:
        import shutil
        shutil.rmtree(scratch, ignore_errors=True)


def replay(path):
    payload = json.load(open(path))
    pid = payload['property']
    mod = importlib.import_module('harness.props.%s' % pid.lower())
    if payload.get('kind') == 'failing-input':
        ok = mod.replay(payload['case'])
        print(json.dumps(ok, indent=1))
        if ok.get('still_fails'):
            print('VIOLATION property=%s replay=%s' % (pid, path))
            return 1
        return 0
    print('replay names a proof obligation / correspondence that no longer checks: %s' % payload.get('no_longer_checks'))
    print('re-run: /venv/bin/python check.py %s quick' % pid)
    return run_check(pid, 'quick')


def setup():
    with fw.Lock():
        gp = fw.gen_params()
        failed = fw.build()
    print(json.dumps({'gen_params': gp.get('ok'), 'failed': failed}, indent=1))
    return 0 if gp.get('ok') and not failed else 1


if __name__ == '__main__':
    a = sys.argv[1:]
    try:
        if a and a[0] == '--replay':
            sys.exit(replay(a[1]))
        if a and a[0] == '--setup':
            sys.exit(setup())
        sys.exit(run_check(a[0], a[1] if len(a) > 1 else os.environ.get('VERIF_TIER', 'quick')))
    except SystemExit:
        raise
    except BaseException:
        traceback.print_exc()
        sys.exit(2)
